#!/usr/bin/env python3
"""Generator of the derive witness family: for every member, a `#[derive(Bpaf)]` input and the hand-written combinator
equivalent produced by an INDEPENDENT model of the documented derive rules (kebab-case naming, single character ->
short, type -> consumer and shape, unnamed -> positional in order, variants -> alternatives, unit -> req_flag, command
-> subcommand, doc comments -> help/descr/header/footer, explicit annotations override exactly what they name).
Usage: gen.py <seed> <n_random>  -> writes src/lib.rs"""
import random, re, sys, os

HERE = os.path.dirname(os.path.abspath(__file__))

def case_words(name, sep):
    """the documented naming rule: an ASCII upper-case letter starts a new word (separator + lower case) unless it is the very first
    character of the result; `_` and `-` become the separator; everything else is copied"""
    name = name[2:] if name.startswith('r#') else name
    out = ''
    for c in name:
        if 'A' <= c <= 'Z':
            if out != '':
                out += sep
            out += c.lower()
        elif c in '-_':
            out += sep
        else:
            out += c
    return out

def kebab(name):
    return case_words(name, '-')

def snake(type_name):
    return case_words(type_name, '_')

def variant_kebab(v):
    return case_words(v[2:] if v.startswith('r#') else v, '-')

class F:
    def __init__(self, name, ty, naming=(), cons=None, post=(), doc=None):
        self.name = name; self.ty = ty; self.naming = list(naming); self.cons = cons; self.post = list(post); self.doc = doc

def inner_ty(ty):
    # the shape is read off the LAST segment of the type path: `std::option::Option<T>` is an Option, `std::primitive::bool` a bool
    m = re.match(r'^(?:::)?(?:\w+::)*(Option|Vec)<(.*)>$', ty)
    return (m.group(1), m.group(2)) if m else (None, ty)

def is_bool(ty):
    return re.match(r'^(?:::)?(?:\w+::)*bool$', ty) is not None

def attr_text(f):
    parts = []
    for (k, v) in f.naming:
        if v is None: parts.append(k)
        elif k == 'short': parts.append("short('%s')" % v)
        else: parts.append('%s("%s")' % (k, v))
    if f.cons: parts.append(f.cons)
    parts += f.post
    return ('#[bpaf(%s)]\n        ' % ', '.join(parts)) if parts else ''

def doc_text(doc, indent='        '):
    """only ONE ordinary blank after `///` belongs to the comment syntax: a line that starts with a tab or a no-break space is written
    without it and keeps that character in the documented text"""
    if doc is None: return ''
    out = ''
    for l in doc.split('\n'):
        if not l: out += '%s///\n' % indent
        elif l[0] in '\t\u00a0\u3000': out += '%s///%s\n' % (indent, l)
        else: out += '%s/// %s\n' % (indent, l)
    return out

def lit(s):
    return '"%s"' % s.replace('\\', '\\\\').replace('"', '\\"').replace('\n', '\\n')

def field_ref(f, positional_default=False):
    """the documented combinator equivalent of one field"""
    shape, ty = inner_ty(f.ty)
    cons = f.cons
    explicit_pos = cons is not None and cons.startswith('positional')
    named = (f.name is not None) and not explicit_pos and not positional_default
    meta = '"ARG"'
    if cons and '(' in cons and (cons.startswith('argument') or cons.startswith('positional')):
        meta = cons[cons.index('(') + 1:-1]
    if cons and cons.startswith('external'):
        m = re.match(r'^external\((\w+)\)$', cons)
        e = '%s()' % (m.group(1) if m else kebab(f.name).replace('-', '_'))
        for p in f.post:
            e += '.' + (p if '(' in p else p + '()')
        return e
    if cons and re.match(r'^pure(_with)?\(', cons):
        # a constant "consumer" takes nothing from the line.  pure(v) IS the value of the field, whatever its shape; pure_with(f)
        # is a parser of the INNER type like any other consumer, so Option / Vec fields get optional() / many() around it
        e = '::bpaf::' + cons
        parse_like = any(re.match(r'^(optional|many|some|map|parse|collect|count|last)\b', p) for p in f.post)
        if cons.startswith('pure_with(') and not parse_like:
            if shape == 'Option': e += '.optional()'
            elif shape == 'Vec': e += '.many()'
        for p in f.post:
            e += '.' + (p if '(' in p else p + '()')
        return e
    if named:
        names = []
        for (k, v) in f.naming:
            if k == 'short':
                names.append("short('%s')" % (v if v is not None else kebab(f.name)[0]))
            elif k == 'long':
                names.append('long(%s)' % lit(v if v is not None else kebab(f.name)))
        envs = ['env(%s)' % lit(v) for (k, v) in f.naming if k == 'env']
        if not names:
            kn = kebab(f.name)
            names = ["short('%s')" % kn] if len(kn) == 1 else ['long(%s)' % lit(kn)]
        e = '::bpaf::' + '.'.join(names + envs)
        if f.doc is not None: e += '.help(%s)' % lit(f.doc)
        if cons == 'switch' or (cons is None and is_bool(f.ty)):
            e += '.switch()'
        elif cons and cons.startswith('req_flag'):
            e += '.' + cons
        elif cons and cons.startswith('flag'):
            e += '.' + cons
        elif cons is None and f.ty == '()':
            e += '.req_flag(())'
        else:
            e += '.argument::<%s>(%s)' % (ty, meta)
    else:
        e = '::bpaf::positional::<%s>(%s)' % (ty, meta)
        if f.doc is not None: e += '.help(%s)' % lit(f.doc)
    parse_like = any(re.match(r'^(optional|many|some|map|parse|collect|count|last)\b', p) for p in f.post)
    if not parse_like and not (cons or '').startswith('external'):
        if shape == 'Option': e += '.optional()'
        elif shape == 'Vec': e += '.many()'
    for p in f.post:
        e += '.' + (p if '(' in p else p + '()')
    return e

def doc_blocks(doc):
    """the documented block rule of doc comments, re-implemented independently: consecutive non-empty lines are joined with a
    newline; a single empty line inside a block is kept as a paragraph break; TWO empty lines in a row end the block (so a
    longer run of empty lines produces empty blocks)"""
    out = []; cur = ''; prev_empty = False
    for line in doc.split('\n'):
        if line == '':
            if prev_empty:
                prev_empty = False
                out.append(cur.rstrip()); cur = ''
            else:
                prev_empty = True
        else:
            if prev_empty:
                cur += '\n'
            cur += line + '\n'
            prev_empty = False
    if cur != '':
        out.append(cur.rstrip())
    return out

def split_doc(doc):
    """descr / header / footer: the first block, the second block, and the remaining blocks joined by newlines (empty blocks
    in front of the footer contribute nothing)"""
    if not doc: return None, None, None
    bl = doc_blocks(doc)
    descr = bl[0] if bl else None
    header = bl[1] if len(bl) > 1 and bl[1] else None
    rest = ''
    for t in bl[2:]:
        if rest != '':
            rest += '\n'
        rest += t
    return descr, header, (rest or None)

class Member:
    """one struct or enum with its derive input and reference"""
    def __init__(self, mod, kind, name, top=(), doc=None, fields=(), tuple_struct=False, variants=()):
        self.mod = mod; self.kind = kind; self.name = name; self.top = list(top); self.doc = doc
        self.fields = list(fields); self.tuple = tuple_struct; self.variants = list(variants)

    def fields_block(self, fields, ctor, tuple_struct, indent):
        lets = []; names = []
        for i, f in enumerate(fields):
            n = ('f%d' % i) if tuple_struct else f.name
            lets.append('%slet %s = %s;' % (indent, n, field_ref(f, positional_default=tuple_struct)))
            names.append(n)
        if not fields:
            return '::bpaf::pure(%s %s)' % (ctor, '()' if tuple_struct else '{}') if False else None
        cons = ('%s(%s)' % (ctor, ', '.join(names))) if tuple_struct else ('%s { %s }' % (ctor, ', '.join(names)))
        return '{\n%s\n%s::bpaf::construct!(%s)\n%s}' % ('\n'.join(lets), indent, cons, indent[:-4])

    def input(self):
        out = doc_text(self.doc, '    ')
        out += '    #[derive(Debug, Clone, Bpaf)]\n'
        if self.top: out += '    #[bpaf(%s)]\n' % ', '.join(self.top)
        if self.kind == 'struct' and not self.fields:
            out += '    pub struct %s;\n' % self.name
        elif self.kind == 'struct':
            if self.tuple:
                out += '    pub struct %s(%s);\n' % (self.name, ', '.join(('%s%spub %s' % (doc_text(f.doc, '').replace('\n', ' ') if False else '', attr_text(f).replace('\n        ', ' '), f.ty)) for f in self.fields))
            else:
                out += '    pub struct %s {\n' % self.name
                for f in self.fields:
                    out += doc_text(f.doc) + '        ' + attr_text(f) + 'pub %s: %s,\n' % (f.name, f.ty)
                out += '    }\n'
        else:
            out += '    pub enum %s {\n' % self.name
            for v in self.variants:
                out += doc_text(v.get('doc'))
                vattrs = list(v.get('attrs', []))
                for (k, val) in v.get('naming', ()):
                    vattrs.append(k if val is None else ("short('%s')" % val if k == 'short' else '%s("%s")' % (k, val)))
                if vattrs: out += '        #[bpaf(%s)]\n' % ', '.join(vattrs)
                if v['shape'] == 'unit':
                    out += '        %s,\n' % v['name']
                elif v['shape'] == 'named':
                    out += '        %s {\n' % v['name']
                    for f in v['fields']:
                        out += doc_text(f.doc, '            ') + '            ' + attr_text(f).replace('\n        ', '\n            ') + '%s: %s,\n' % (f.name, f.ty)
                    out += '        },\n'
                else:
                    out += '        %s(%s),\n' % (v['name'], ', '.join(attr_text(f).replace('\n        ', ' ') + f.ty for f in v['fields']))
            out += '    }\n'
        return out

    def top_suffix(self, doc, top, default_cmd_name):
        """combinator suffix for options / command annotations"""
        e = ''
        is_opts = any(t == 'options' or t.startswith('options(') for t in top)
        cmd = [t for t in top if t == 'command' or t.startswith('command(')]
        if is_opts or cmd:
            e += '.to_options()'
            if 'version' in top: e += '.version(env!("CARGO_PKG_VERSION"))'
            for t in top:
                mv = re.match(r'^version\((.*)\)$', t)
                if mv: e += '.version(%s)' % mv.group(1)
            descr, header, footer = split_doc(doc)
            for t in top:
                m = re.match(r'^(descr|header|footer)\((.*)\)$', t)
                if m:
                    if m.group(1) == 'descr': descr = ('RAW', m.group(2))
                    if m.group(1) == 'header': header = ('RAW', m.group(2))
                    if m.group(1) == 'footer': footer = ('RAW', m.group(2))
            def L(x): return x[1] if isinstance(x, tuple) else lit(x)
            if descr: e += '.descr(%s)' % L(descr)
            if header: e += '.header(%s)' % L(header)
            if footer: e += '.footer(%s)' % L(footer)
            if 'fallback_to_usage' in top: e += '.fallback_to_usage()'
            if cmd:
                m = re.match(r'^command\((.*)\)$', cmd[0])
                e += '.command(%s)' % (m.group(1) if m else lit(default_cmd_name))
                for t in top:
                    m2 = re.match(r"^(short\('.'\)|long\(\".*\"\))$", t)
                    if m2 and top.index(t) > top.index(cmd[0]): e += '.' + t
        return e

    def group_help(self):
        """the title of a plain parser: what the annotation says; the doc comment only when there is no annotation"""
        for t in self.top:
            m = re.match(r'^group_help\((.*)\)$', t)
            if m: return m.group(1)
        # a doc comment that is one blank line is still a doc comment: the title is the empty string
        return lit(self.doc) if self.doc is not None else None

    def reference(self):
        is_opts = any(t == 'options' or t.startswith('options(') for t in self.top)
        cmd = any(t == 'command' or t.startswith('command(') for t in self.top)
        ret = '::bpaf::OptionParser<%s>' % self.name if is_opts else ('impl ::bpaf::Parser<%s>' % self.name)
        if self.kind == 'struct':
            body = self.fields_block(self.fields, self.name, self.tuple, '            ')
            if body is None:
                # unit struct: a required flag named after the type
                kn = variant_kebab(self.name)
                body = '::bpaf::long(%s).req_flag(%s)' % (lit(kn), self.name)
            if not is_opts and not cmd and self.group_help():
                body += '.group_help(%s)' % self.group_help()
            if 'adjacent' in self.top and not cmd: body += '.adjacent()'
            # post-processing annotations decorate the PARSER of the fields: they come before to_options() / command(), whatever the mode
            for t in self.top:
                if re.match(r'^(fallback\(.*\)|debug_fallback|display_fallback|hide|hide_usage)$', t):
                    body += '.' + (t if '(' in t else t + '()')
            body += self.top_suffix(self.doc, self.top, variant_kebab(self.name))
        else:
            alts = []
            for i, v in enumerate(self.variants):
                ctor = '%s::%s' % (self.name, v['name'])
                attrs = v.get('attrs', [])
                if v['shape'] == 'unit':
                    f = F(snake(v['name']), '()', naming=v.get('naming', ()), doc=v.get('doc'))
                    names = []
                    for (k, val) in f.naming:
                        if k == 'short': names.append("short('%s')" % (val if val is not None else variant_kebab(v['name'])[0]))
                        if k == 'long': names.append('long(%s)' % lit(val if val is not None else variant_kebab(v['name'])))
                    if not names:
                        kn = variant_kebab(v['name'])
                        names = ["short('%s')" % kn] if len(kn) == 1 else ['long(%s)' % lit(kn)]
                    e = '::bpaf::' + '.'.join(names)
                    if v.get('doc') and not any(a.startswith('command') for a in attrs): e += '.help(%s)' % lit(v['doc'])
                    e += '.req_flag(%s)' % ctor
                    if any(a == 'command' or a.startswith('command(') for a in attrs):
                        e = '::bpaf::pure(%s)' % ctor + self.top_suffix(v.get('doc'), attrs, variant_kebab(v['name']))
                else:
                    e = self.fields_block(v['fields'], ctor, v['shape'] == 'tuple', '                ')
                    e += self.top_suffix(v.get('doc'), attrs, variant_kebab(v['name']))
                alts.append('            let alt%d = %s;' % (i, e))
            body = '{\n%s\n            ::bpaf::construct!([%s])\n        }' % ('\n'.join(alts), ', '.join('alt%d' % i for i in range(len(alts))))
            body += self.top_suffix(self.doc, self.top, variant_kebab(self.name))
            if not is_opts and not cmd and self.group_help():
                body += '.group_help(%s)' % self.group_help()
        return '    pub fn reference() -> %s {\n        #[allow(unused_imports)]\n        use ::bpaf::Parser;\n        %s\n    }\n' % (ret, body)

    def text(self):
        return 'pub mod %s {\n    #![allow(dead_code, unused_imports, non_snake_case, non_camel_case_types)]\n    use bpaf::*;\n    use std::path::PathBuf;\n    pub fn positive(x: &usize) -> bool { *x > 0 }\n    pub fn level() -> impl Parser<f64> { ::bpaf::long("level").argument::<f64>("LVL") }\n    pub const MSG: &str = "must be positive";\n%s\n%s}\n' % (self.mod, self.input(), self.reference())

    def derived_fn(self):
        for t in self.top:
            m = re.match(r'^generate\((\w+)\)$', t)
            if m: return m.group(1)
        return snake(self.name)

def base_family():
    M = []
    M.append(Member('b_switch_arg', 'struct', 'Opts', top=['options'], doc='Simple options', fields=[
        F('verbose', 'bool', doc='be verbose'), F('number_of_things', 'usize', doc='how many'), F('name', 'String'), F('j', 'u32')]))
    M.append(Member('b_shapes', 'struct', 'Shapes', top=['options'], fields=[
        F('maybe', 'Option<u32>'), F('many_items', 'Vec<String>', doc='several'), F('path', 'PathBuf'), F('unit_flag', '()')]))
    M.append(Member('b_names', 'struct', 'Names', top=['options'], fields=[
        F('first_one', 'u32', naming=[('short', None), ('long', None)]), F('second', 'u32', naming=[('short', 'x')]),
        F('third', 'bool', naming=[('long', 'three'), ('long', 'trois'), ('short', None)]), F('r#type', 'String'), F('r#in', 'u32', naming=[('short', None)]),
        F('r#match', 'bool', naming=[('short', None), ('long', None)]), F('with_env', 'String', naming=[('long', None), ('env', 'WITH_ENV')])]))
    M.append(Member('b_positional', 'struct', 'Pos', top=['options'], fields=[
        F('flag', 'bool'), F('input', 'String', cons='positional("INPUT")', doc='input file'), F('rest', 'Vec<String>', cons='positional')]))
    M.append(Member('b_tuple', 'struct', 'Tup', top=['options'], tuple_struct=True, fields=[F(None, 'u32'), F(None, 'String'), F(None, 'Vec<PathBuf>')]))
    M.append(Member('b_post', 'struct', 'Post', top=['options'], fields=[
        F('level', 'u32', post=['fallback(3)']), F('secret', 'bool', post=['hide']), F('count', 'u32', cons='argument("N")', doc='a count'),
        F('speed', 'f64', post=['fallback(1.5)', 'display_fallback'])]))
    M.append(Member('b_docs', 'struct', 'Docs', top=['options', 'version'], doc='Description line\n\n\nHeader line\n\n\nFooter line\nmore footer', fields=[F('a', 'bool')]))
    M.append(Member('b_docs_header', 'struct', 'DocsH', top=['options', 'header("explicit header")'], doc='Description\n\n\nDoc header\n\n\nDoc footer', fields=[F('a', 'bool')]))
    M.append(Member('b_docs_footer', 'struct', 'DocsF', top=['options', 'footer("explicit footer")'], doc='Description\n\n\nDoc header\n\n\nDoc footer', fields=[F('a', 'bool')]))
    M.append(Member('b_parser_only', 'struct', 'Group', doc='Group of options', fields=[F('width', 'u32'), F('height', 'u32')]))
    M.append(Member('b_enum', 'enum', 'Mode', variants=[
        dict(name='Fast', shape='unit', doc='fast mode'), dict(name='VerySlow', shape='unit'),
        dict(name='Level', shape='named', fields=[F('level', 'u32', doc='the level')]),
        dict(name='Pair', shape='tuple', fields=[F(None, 'u32'), F(None, 'String')])]))
    M.append(Member('b_enum_cmd', 'enum', 'Cmd', top=['options'], doc='Tool', variants=[
        dict(name='Build', shape='named', attrs=['command'], doc='build things', fields=[F('release', 'bool'), F('target', 'Option<String>')]),
        dict(name='RunTests', shape='named', attrs=['command'], doc='run the tests', fields=[F('filter', 'Vec<String>', cons='positional("FILTER")')]),
        dict(name='Clean', shape='unit', attrs=['command'], doc='remove artefacts')]))
    M.append(Member('b_struct_cmd', 'struct', 'Sub', top=['command'], doc='a sub command', fields=[F('depth', 'u32', naming=[('short', None), ('long', None)])]))
    M.append(Member('b_explicit_cons', 'struct', 'Cons', top=['options'], fields=[
        F('item', 'bool', cons='flag(true, false)'), F('needed', 'bool', cons='req_flag(true)'),
        F('config', 'Vec<u32>', cons='argument("N")', post=['some("need params")']),
        F('number', 'usize', post=['guard(positive, "msg")']), F('other', 'usize', post=['guard(positive, MSG)']),
        F('lvl', 'f64', cons='external(level)'), F('lvl2', 'Option<f64>', cons='external(level)', post=['optional'])]))
    M.append(Member('b_cmd_alias', 'struct', 'Command', top=['command', "short('c')", 'long("long")', 'long("long2")'], doc='help', fields=[F('i', 'bool')]))
    M.append(Member('b_cmd_named', 'struct', 'Renamed', top=['command("do-it")'], doc='does it', fields=[F('fast', 'bool')]))
    M.append(Member('b_generate', 'struct', 'Foo', top=['generate(oof)']))
    M.append(Member('b_adjacent', 'struct', 'Adj', top=['adjacent'], fields=[F('a', 'String'), F('b', 'String')]))
    M.append(Member('b_unit_names', 'enum', 'Lint', variants=[
        dict(name='Warn', shape='unit', naming=[('short', None), ('long', None)], doc='warn about it'),
        dict(name='Quiet', shape='unit', naming=[('short', None)]),
        dict(name='VeryVerbose', shape='unit', naming=[('long', None)]),
        dict(name='Extra', shape='unit', naming=[('short', 'x'), ('long', 'extra-checks')]),
        dict(name='Other', shape='unit', naming=[('long', 'renamed'), ('short', None)]),
        dict(name='Plain', shape='unit')]))
    # raw-identifier unit variants: the implicit short / long names are taken from the name WITHOUT the r# prefix (first letter of the kebab form)
    M.append(Member('b_raw_unit_names', 'enum', 'Kw', variants=[
        dict(name='r#Type', shape='unit', naming=[('short', None)]),
        dict(name='r#Loop', shape='unit', naming=[('short', None), ('long', None)], doc='loop it'),
        dict(name='r#Match', shape='unit')]))
    M.append(Member('b_non_ascii', 'struct', 'Intl', top=['options'], fields=[
        F('\u00f1', 'bool', doc='single non-ASCII character: a short name'), F('\u0436', 'Option<u32>'),
        F('gr\u00f6\u00dfe', 'u32', doc='several characters: a long name'), F('\u00e9t\u00e9', 'bool', naming=[('short', None), ('long', None)])]))
    M.append(Member('b_docs_gap', 'struct', 'DocsGap', top=['options'], doc='Description line\n\n\nHeader line\n\n\n\n\nFooter after a long gap\n\n\nsecond footer block', fields=[F('a', 'bool')]))
    M.append(Member('b_group_fallback', 'struct', 'GroupF', top=['fallback(GroupF { width: 1, height: 2 })', 'debug_fallback'], doc='Size of the thing', fields=[F('width', 'u32'), F('height', 'u32')]))
    M.append(Member('b_usage', 'struct', 'Usage', top=['options', 'fallback_to_usage'], fields=[F('a', 'u32')]))
    # a block of the doc comment keeps its own indentation (only trailing whitespace goes): usage lines, lists
    M.append(Member('b_docs_indent', 'struct', 'DocsIndent', top=['options'], doc='Description\n\n\n    frob [-v] FILE...\nmore header\n\n\n  - first footer item\n  - second footer item', fields=[F('a', 'bool')]))
    M.append(Member('b_docs_indent_cmd', 'enum', 'IndentCmd', variants=[
        dict(name='Run', shape='named', attrs=['command'], doc='run it\n\n\n    run [--fast]\n\n\n  * footer bullet', fields=[F('fast', 'bool')])]))
    M.append(Member('b_cmd_fallback', 'struct', 'Tune', top=['command', 'fallback(Tune { level: 3 })'], doc='tune it', fields=[F('level', 'u32')]))
    M.append(Member('b_opts_fallback', 'struct', 'OptsF', top=['options', 'fallback(OptsF { n: 1 })'], fields=[F('n', 'u32')]))
    M.append(Member('b_docs_tab', 'struct', 'DocsTab', top=['options'], doc='Formats:\n\tjson,\n\u00a0\u00a0yaml', fields=[F('fmt', 'String', doc='\tpick one')]))
    # only EMPTY doc lines separate blocks: a line of blanks is text
    M.append(Member('b_docs_blank_lines', 'struct', 'DocsBlank', top=['options'], doc='Renders a table\n \n \ncells are separated with a pipe\n\n\nfooter text', fields=[F('width', 'usize', doc='Column width\n \nin characters')]))
    # an explicit group_help wins over the doc comment of the type
    M.append(Member('b_group_help_explicit', 'struct', 'Rect', top=['group_help("Takes a rectangle")'], doc='Dimensions of a rectangle, in meters', fields=[F('width', 'u32', doc='Width'), F('height', 'u32')]))
    M.append(Member('b_group_help_enum', 'enum', 'Syntax', top=['group_help("Output syntax")'], doc='Which syntax to use', variants=[
        dict(name='Intel', shape='unit', doc='Intel style'), dict(name='Att', shape='unit')]))
    # a version asked for on a subcommand is the subcommand's: command mode passes it on like options mode does
    M.append(Member('b_cmd_version', 'struct', 'Fmt', top=['command', 'version'], doc='format it', fields=[F('check', 'bool')]))
    M.append(Member('b_cmd_version_lit', 'struct', 'Lint', top=['command("lint")', 'version("1.2.3-lint")', 'short(\'l\')'], fields=[F('fix', 'bool')]))
    # a doc comment consisting of a single blank `///` line is a (blank) help text, not "no help"
    M.append(Member('b_docs_single_blank', 'struct', 'Blank', top=[], doc='', fields=[F('alpha', 'bool', doc=''), F('beta', 'u32', doc='real help')]))
    # constant consumers: pure(v) is the field's value as it is, pure_with(f) gets the implicit optional()/many() of its shape
    M.append(Member('b_pure_consumers', 'struct', 'Consts', top=['options'], fields=[
        F('seed', 'Option<u32>', cons='pure_with(|| Ok::<_, String>(Default::default()))'), F('extra', 'Vec<u32>', cons='pure_with(|| Ok::<_, String>(Default::default()))'),
        F('fixed', 'u32', cons='pure(7)'), F('maybe', 'Option<u32>', cons='pure(None)'), F('n', 'u32')]))
    # an explicit header(..) on a command variant replaces the header block of the doc comment and nothing else
    M.append(Member('b_cmd_variant_header', 'enum', 'Tool', top=['options'], variants=[
        dict(name='Build', shape='named', attrs=['command', 'header("explicit header")'], doc='Build it\n\n\ndoc header block\n\n\ndoc footer block', fields=[F('release', 'bool')]),
        dict(name='Clean', shape='unit', attrs=['command', 'footer("explicit footer")'], doc='Clean it\n\n\nheader of clean\n\n\nfooter of clean')]))
    # implicit names follow the word rule, whatever the style of the identifier
    M.append(Member('b_cmd_multiword', 'struct', 'CheckConnection', top=['command'], doc='check it', fields=[F('retry_count', 'u32')]))
    M.append(Member('b_case_rule', 'struct', 'CaseRule', top=['options'], fields=[F('max_KiB', 'u32'), F('HTTPProxy', 'Option<String>'), F('x_Y', 'bool', naming=[('long', None), ('short', None)])]))
    M.append(Member('b_case_rule_enum', 'enum', 'Target', variants=[
        dict(name='Aarch64_Linux', shape='unit'), dict(name='X86', shape='unit'), dict(name='RiscV_BareMetal', shape='unit', naming=[('long', None)])]))
    # shapes are recognised on the last path segment
    M.append(Member('b_qualified_types', 'struct', 'Qualified', top=['options'], fields=[
        F('verbose', 'std::primitive::bool', doc='a switch'), F('level', 'std::option::Option<u32>'), F('names', '::std::vec::Vec<String>'), F('plain', '::core::primitive::bool')]))
    return M

NAMES = ['\u0436', 'gr\u00f6\u00dfe', 'verbose', 'quiet', 'output_dir', 'n', 'x', 'dry_run', 'jobs', 'r#type', 'r#in', 'r#loop', 'max_depth', 'k', 'log_level', 'r#as', 'input_file', 'v']
TYPES = ['bool', 'u32', 'String', 'PathBuf', 'Option<u32>', 'Option<String>', 'Vec<String>', 'Vec<u32>', 'usize', 'f64', '()']
DOCS = [None, None, 'some help', 'turns the thing on', 'path to the thing\nsecond line', 'a "quoted" word']

def random_field(rng, used):
    name = rng.choice([n for n in NAMES if n not in used]); used.add(name)
    ty = rng.choice(TYPES)
    naming = []
    r = rng.random()
    if r < 0.2: naming.append(('short', None))
    elif r < 0.35: naming += [('short', None), ('long', None)]
    elif r < 0.45: naming.append(('long', None))
    elif r < 0.55: naming.append(('short', rng.choice('abcdefgqz')))
    elif r < 0.65: naming.append(('long', rng.choice(['alt-name', 'other', 'renamed-thing'])))
    elif r < 0.7: naming += [('long', None), ('long', 'alias-name')]
    if rng.random() < 0.15: naming.append(('env', 'VAR_' + kebab(name).upper().replace('-', '_')))
    cons = None; post = []
    if ty not in ('bool', '()'):
        r = rng.random()
        if r < 0.15: cons = 'argument("%s")' % rng.choice(['FILE', 'N', 'SPEC'])
        elif r < 0.25 and not naming: cons = 'positional("%s")' % rng.choice(['ITEM', 'WORD'])
        if inner_ty(ty)[0] is None and rng.random() < 0.2 and ty in ('u32', 'usize'):
            post.append('fallback(%d)' % rng.randint(0, 9))
    if rng.random() < 0.08: post.append('hide')
    if cons is None and not post and rng.random() < 0.06:
        # constant consumers
        sh, it = inner_ty(ty)
        if it in ('u32', 'usize'):
            if rng.random() < 0.5 or sh is not None:
                cons = 'pure_with(|| Ok::<_, String>(Default::default()))'
            else:
                cons = 'pure(%d)' % rng.randint(0, 9)
            naming = []
    return F(name, ty, naming=naming, cons=cons, post=post, doc=rng.choice(DOCS))

def order_fields(fields):
    # positional items must follow the named ones
    return [f for f in fields if not (f.cons or '').startswith('positional')] + [f for f in fields if (f.cons or '').startswith('positional')]

def random_member(rng, i):
    used = set()
    if rng.random() < 0.6:
        fields = order_fields([random_field(rng, used) for _ in range(rng.randint(1, 5))])
        r = rng.random()
        top = ['options'] if r < 0.6 else (['command'] if r < 0.75 else [])
        doc = rng.choice([None, 'A tool', 'A tool\n\n\nWith header', 'Desc\n\n\nHead\n\n\nFoot', 'Desc\n \nstill desc\n\n\nHead'])
        if top and rng.random() < 0.3: top.append('version')
        if not top and rng.random() < 0.3: top.append('group_help("explicit title")')
        if top and top[0] in ('options', 'command') and doc and rng.random() < 0.25: top.append(rng.choice(['header("explicit h")', 'footer("explicit f")']))
        return Member('r%03d' % i, 'struct', 'Gen%d' % i, top=top, doc=doc, fields=fields)
    variants = []
    for j in range(rng.randint(2, 4)):
        vn = rng.choice(['Alpha', 'BetaGamma', 'Delta', 'EpsilonZetaEta', 'Theta', 'Iota']) + str(j)
        shape = rng.choice(['unit', 'named', 'named', 'tuple'])
        vd = rng.choice([None, 'variant help', 'does a thing'])
        attrs = ['command'] if rng.random() < 0.35 else []
        if attrs and rng.random() < 0.3:
            vd = rng.choice(['cmd descr\n\n\ncmd header\n\n\ncmd footer', 'cmd descr\n\n\ncmd header'])
            attrs.append(rng.choice(['header("explicit h")', 'footer("explicit f")']))
        if shape == 'unit':
            naming = []
            r = rng.random()
            if not attrs:
                if r < 0.15: naming = [('short', None), ('long', None)]
                elif r < 0.25: naming = [('short', None)]
                elif r < 0.35: naming = [('long', None)]
                elif r < 0.45: naming = [('short', rng.choice('abcdefgqz')), ('long', None)]
                elif r < 0.5: naming = [('long', 'explicit-name')]
            variants.append(dict(name=vn, shape='unit', doc=vd, attrs=attrs, naming=naming))
        elif shape == 'named':
            u2 = set()
            variants.append(dict(name=vn, shape='named', doc=vd, attrs=attrs, fields=order_fields([random_field(rng, u2) for _ in range(rng.randint(1, 3))])))
        else:
            variants.append(dict(name=vn, shape='tuple', doc=vd, attrs=attrs, fields=[F(None, rng.choice(['u32', 'String', 'PathBuf'])) for _ in range(rng.randint(1, 2))]))
    top = ['options'] if rng.random() < 0.5 else []
    return Member('r%03d' % i, 'enum', 'GenE%d' % i, top=top, doc=rng.choice([None, 'An enum tool']), variants=variants)

def main():
    seed = int(sys.argv[1]) if len(sys.argv) > 1 else 0
    n = int(sys.argv[2]) if len(sys.argv) > 2 else 0
    out = sys.argv[3] if len(sys.argv) > 3 else os.path.join(HERE, 'src/lib.rs')
    rng = random.Random(seed)
    members = base_family() + [random_member(rng, i) for i in range(n)]
    with open(out, 'w') as fh:
        fh.write('//! GENERATED by gen.py (seed %d, %d random members) - derive inputs and their documented combinator equivalents\n#![allow(dead_code, unused_imports, clippy::all)]\n' % (seed, n))
        for m in members:
            fh.write(m.text())
    idx = [(m.mod, m.derived_fn(), m.kind, m.name) for m in members]
    import json
    json.dump(idx, open(os.path.join(os.path.dirname(out), 'members.json'), 'w'))
    print('%d members' % len(members))

if __name__ == '__main__':
    main()
